"""Grammar-directed, scope-aware generator of PiciLisp programs (text).

All random choices come from the `random.Random` handed in.  Programs are mostly valid (type-directed), with a
separately controlled stream of injected faults.  `features` switches families of constructs on and off so the
same generator serves C02/C05/C06/C07/C08/C09/C16/C20."""
import random

ALL = {'prelude', 'macros', 'traps', 'output', 'faults', 'globals', 'rest', 'higher', 'strings', 'quote', 'gensym', 'reflect'}
CORE = {'faults', 'globals', 'rest', 'higher', 'quote'}        # C05's core language: no prelude


class Gen:
    def __init__(self, rng, features=None, fault_rate=0.12, max_depth=5):
        self.r = rng
        self.f = set(ALL if features is None else features)
        self.fault_rate = fault_rate
        self.max_depth = max_depth
        self.globals = []          # (name, type)
        self.counter = 0
        self.stats = {}

    def note(self, k):
        self.stats[k] = self.stats.get(k, 0) + 1

    def fresh(self, prefix):
        self.counter += 1
        return f'{prefix}{self.counter}'

    def has(self, feat):
        return feat in self.f

    # ---------------------------------------------------------------- atoms
    def small_int(self):
        r = self.r
        c = r.random()
        if c < 0.7:
            return str(r.randint(-5, 12))
        if c < 0.9:
            return str(r.choice([0, 1, -1, 2, 7, 100, 255, 1000, -1000, 65536]))
        return str(r.choice([9223372036854775807, -9223372036854775808, 4611686018427387904, -4611686018427387905, 3037000500, 2147483648]))

    def char(self):
        return self.r.choice(['%a', '%b', '%Z', '%0', '%\\n', '%\\s', '%\\t', '%\\\\', '%(', '%)', '%;', '%"', "%'", '%%', '%é', '%λ', '%,'])

    def string(self):
        r = self.r
        pieces = ['a', 'b', 'hello', ' ', 'x y', '\\"', '\\\\', '\\n', '(', ')', ';', "'", '%', 'λ', '0', '-1', '']
        return '"' + ''.join(r.choice(pieces) for _ in range(r.randint(0, 4))) + '"'

    def symbol_name(self):
        return self.r.choice(['a', 'b', 'c', 'foo', 'bar', 'kind', 'source', 'x', 'y', 'list', 'quote', 'nil', 't', '+', '-', 'a-b', '*s*', 'lambda', 'if'])

    def datum(self, depth=0):
        """text of a datum to be used under quote"""
        r = self.r
        c = r.random()
        if depth >= 3 or c < 0.45:
            k = r.random()
            if k < 0.4: return self.small_int()
            if k < 0.6: return self.symbol_name()
            if k < 0.75 and self.has('strings'): return self.char()
            if k < 0.9 and self.has('strings'): return self.string()
            return '()'
        n = r.randint(0, 4)
        return '(' + ' '.join(self.datum(depth + 1) for _ in range(n)) + ')'

    # ---------------------------------------------------------------- typed expressions
    def vars_of(self, scope, ty):
        return [n for (n, t) in scope if t == ty] + [n for (n, t) in self.globals if t == ty]

    def expr(self, ty, scope, depth):
        if self.has('faults') and self.r.random() < self.fault_rate / (1 + depth):
            return self.fault(ty, scope, depth)
        if ty == 'int':  return self.int_expr(scope, depth)
        if ty == 'bool': return self.bool_expr(scope, depth)
        if ty == 'list': return self.list_expr(scope, depth)
        if ty == 'fn1':  return self.fn_expr(1, scope, depth)
        if ty == 'fn2':  return self.fn_expr(2, scope, depth)
        return self.any_expr(scope, depth)

    def leaf(self, ty, scope):
        r = self.r
        vs = self.vars_of(scope, ty)
        if vs and r.random() < 0.6:
            self.note('var')
            return r.choice(vs)
        if ty == 'int':  return self.small_int()
        if ty == 'bool': return r.choice(['t', 'nil', '()', "'yes", '0'])
        if ty == 'list':
            return r.choice(["'()", 'nil', "'(1 2 3)", "(list 1 2)", "'(4)"]) if self.has('quote') else r.choice(['(list)', '(list 1 2)', '(list 3)'])
        if ty == 'fn1': return r.choice(['(lambda (x) x)', '(lambda (x) (add x 1))', '(lambda (k) (cons k ()))'])
        if ty == 'fn2': return r.choice(['add', 'cons', '(lambda (a b) a)', 'multiply', 'substract'])
        return self.any_leaf()

    def any_leaf(self):
        r = self.r
        k = r.random()
        if k < 0.3: return self.small_int()
        if k < 0.45 and self.has('strings'): return self.char()
        if k < 0.6 and self.has('strings'): return self.string()
        if k < 0.8 and self.has('quote'): return "'" + self.datum()
        return r.choice(['()', 't', 'nil'] if self.has('prelude') else ['()', '1', "(quote a)"])

    def int_expr(self, scope, depth):
        r = self.r
        if depth >= self.max_depth or r.random() < 0.25:
            return self.leaf('int', scope)
        d = depth + 1
        opts = ['arith', 'arith', 'if', 'app', 'car']
        if self.has('prelude'): opts += ['let', 'length', 'fold', 'variadic', 'block', 'last']
        if self.has('higher'): opts += ['hocall', 'thunk']
        if self.has('quote'): opts += ['eval']
        if self.has('traps'): opts += ['trap']
        k = r.choice(opts)
        self.note(k)
        if k == 'thunk':
            # a closure WITHOUT parameters that escapes its creation site and is called where the same name is bound to
            # something else (or to nothing): tells lexical from dynamic scope
            v = self.fresh('t')
            body = self.expr('int', scope + [(v, 'int')], d)
            made = f'((lambda ({v}) (lambda () {body})) {self.expr("int", scope, d)})'
            c = r.random()
            if c < 0.35:
                return f'({made})'                                                       # returned, then called outside
            if c < 0.7:
                f = self.fresh('f')
                return f'((lambda ({f} {v}) ({f})) {made} {self.expr("int", scope, d)})'   # called where the name is rebound
            f = self.fresh('f')
            return f'((lambda ({f}) ((lambda ({v}) ({f})) {self.expr("int", scope, d)})) (lambda () {v if r.random() < 0.6 else self.expr("int", scope, d)}))'  # the caller's variable is invisible
        if k == 'arith':
            op = r.choice(['add', 'add', 'substract', 'multiply', 'divide'])
            return f'({op} {self.expr("int", scope, d)} {self.expr("int", scope, d)})'
        if k == 'if':
            return f'(if {self.expr("bool", scope, d)} {self.expr("int", scope, d)} {self.expr("int", scope, d)})'
        if k == 'app':
            return self.apply_lambda('int', scope, d)
        if k == 'car':
            return f'(car (cons {self.expr("int", scope, d)} {self.expr("any", scope, d)}))'
        if k == 'let':
            v = self.fresh('v')
            outer = [n for (n, t) in scope if t == 'int']
            if outer and r.random() < 0.4:
                # several bindings: every operand is evaluated in the OUTER environment — the second one sees the outer value
                # of the name the first one rebinds (let, not let*)
                sh = r.choice(outer)
                self.note('shadow')
                return f'(let ({sh} {self.expr("int", scope, d)} {v} {sh}) {self.expr("int", scope + [(v, "int")], d)})'
            return f'(let ({v} {self.expr("int", scope, d)}) {self.expr("int", scope + [(v, "int")], d)})'
        if k == 'length':
            return f'(length {self.expr("list", scope, d)})'
        if k == 'fold':
            f = r.choice(['foldl', 'foldr'])
            return f'({f} {r.choice(["add", "(lambda (a b) (add a b))", "multiply"])} {self.small_int()} {self.expr("list", scope, d)})'
        if k == 'variadic':
            op = r.choice(['+', '-', '*', '/'])
            n = r.randint(0, 4)
            return f'({op} ' + ' '.join(self.expr('int', scope, d) for _ in range(n)) + ')'
        if k == 'block':
            n = r.randint(0, 2)
            pre = ' '.join(self.side_effect(scope, d) for _ in range(n))
            return f'(block {pre} {self.expr("int", scope, d)})'
        if k == 'last':
            return f'(last (cons {self.expr("int", scope, d)} ()))'
        if k == 'hocall':
            return f'({self.expr("fn2", scope, d)} {self.expr("int", scope, d)} {self.expr("int", scope, d)})'
        if k == 'eval':
            return f"(eval '{self.int_expr([], self.max_depth - 1)})"
        if k == 'trap':
            return self.trap_expr('int', scope, d)
        return self.leaf('int', scope)

    def bool_expr(self, scope, depth):
        r = self.r
        if depth >= self.max_depth or r.random() < 0.3:
            return self.leaf('bool', scope)
        d = depth + 1
        opts = ['lt', 'gt', 'eq', 'eq']
        if self.has('prelude'): opts += ['not', 'and', 'or', 'cmp']
        k = r.choice(opts)
        self.note(k)
        if k == 'lt': return f'(< {self.expr("int", scope, d)} {self.expr("int", scope, d)})'
        if k == 'gt': return f'(> {self.expr("int", scope, d)} {self.expr("int", scope, d)})'
        if k == 'eq': return f'(= {self.expr("any", scope, d)} {self.expr("any", scope, d)})'
        if k == 'not': return f'(not {self.expr("bool", scope, d)})'
        if k == 'and': return f'(and {self.expr("bool", scope, d)} {self.expr("bool", scope, d)})'
        if k == 'or': return f'(or {self.expr("bool", scope, d)} {self.expr("bool", scope, d)})'
        return f'({r.choice(["<=", ">=", "/="])} {self.expr("int", scope, d)} {self.expr("int", scope, d)})'

    def list_expr(self, scope, depth):
        r = self.r
        if depth >= self.max_depth or r.random() < 0.25:
            return self.leaf('list', scope)
        d = depth + 1
        opts = ['list', 'cons', 'cdr', 'if']
        if self.has('prelude'): opts += ['map', 'reverse', 'range', 'append', 'concat', 'init', 'zipmap', 'enumerate']
        if self.has('higher') and self.has('rest'): opts += ['restcall']
        k = r.choice(opts)
        self.note(k)
        if k == 'list':
            return '(list ' + ' '.join(self.expr('int', scope, d) for _ in range(r.randint(0, 4))) + ')'
        if k == 'cons': return f'(cons {self.expr("int", scope, d)} {self.expr("list", scope, d)})'
        if k == 'cdr': return f'(cdr (cons {self.expr("any", scope, d)} {self.expr("list", scope, d)}))'
        if k == 'if': return f'(if {self.expr("bool", scope, d)} {self.expr("list", scope, d)} {self.expr("list", scope, d)})'
        if k == 'map': return f'(map {self.expr("fn1", scope, d)} {self.expr("list", scope, d)})'
        if k == 'reverse': return f'(reverse {self.expr("list", scope, d)})'
        if k == 'range': return f'(range {r.randint(-2, 9)})'
        if k == 'append': return f'(append {self.expr("list", scope, d)} {self.expr("list", scope, d)})'
        if k == 'concat': return '(concat ' + ' '.join(self.expr('list', scope, d) for _ in range(r.randint(0, 3))) + ')'
        if k == 'init': return f'(init {self.expr("list", scope, d)})'
        if k == 'zipmap': return f'(map car (zip {self.expr("list", scope, d)} {self.expr("list", scope, d)}))'
        if k == 'enumerate': return f'(map cdr (enumerate {self.expr("list", scope, d)}))'
        if k == 'restcall':
            n = r.randint(0, 4)
            return f'((lambda (& rest) rest) ' + ' '.join(self.expr('int', scope, d) for _ in range(n)) + ')'
        return self.leaf('list', scope)

    def fn_expr(self, arity, scope, depth):
        r = self.r
        ty = f'fn{arity}'
        if depth >= self.max_depth or r.random() < 0.3:
            return self.leaf(ty, scope)
        d = depth + 1
        self.note('lambda')
        params = [self.fresh('p') for _ in range(arity)]
        # shadowing: sometimes reuse a name that is already bound
        names = [n for (n, t) in scope if t == 'int']
        if names and r.random() < 0.3:
            params[0] = r.choice(names)
            self.note('shadow')
        inner = scope + [(p, 'int') for p in params]
        if r.random() < 0.2:
            # a closure returning a closure, applied at once: still arity-`arity`
            v = self.fresh('c')
            return f'((lambda ({v}) (lambda ({" ".join(params)}) {self.expr("int", inner + [(v, "int")], d)})) {self.expr("int", scope, d)})'
        return f'(lambda ({" ".join(params)}) {self.expr("int", inner, d)})'

    def apply_lambda(self, ty, scope, depth):
        r = self.r
        n = r.randint(0, 3)
        params = [self.fresh('p') for _ in range(n)]
        if n >= 2 and r.random() < 0.15:
            # the same name twice: the LATER parameter shadows the earlier one
            params[r.randrange(1, n)] = params[0]
            self.note('shadow')
        args = [self.expr('int', scope, depth) for _ in range(n)]
        inner = scope + [(p, 'int') for p in params]
        rest = ''
        if self.has('rest') and r.random() < 0.25:
            rp = self.fresh('r') if not params or r.random() < 0.85 else params[-1]      # sometimes the rest parameter reuses a name: it shadows
            rest = (' ' if params else '') + f'& {rp}'
            inner = [(p, t) for (p, t) in inner if p != rp] + [(rp, 'list')]
            args += [self.expr('int', scope, depth) for _ in range(r.randint(0, 2))]
            self.note('restparam')
        body = self.expr(ty, inner, depth)
        return f'((lambda ({" ".join(params)}{rest}) {body}) {" ".join(args)})'

    def any_expr(self, scope, depth):
        r = self.r
        if depth >= self.max_depth or r.random() < 0.3:
            return self.any_leaf()
        k = r.random()
        if k < 0.3: return self.expr('int', scope, depth)
        if k < 0.5: return self.expr('list', scope, depth)
        if k < 0.6: return self.expr('bool', scope, depth)
        if k < 0.7: return f'(cons {self.expr("any", scope, depth + 1)} {self.expr("any", scope, depth + 1)})'
        if k < 0.78 and self.has('gensym'): return '(gensym)'
        if k < 0.86 and self.has('reflect'): return f'(type-of {self.expr("any", scope, depth + 1)})'
        if k < 0.93 and self.has('strings') and self.has('prelude'): return f'(print {self.expr("any", scope, depth + 1)})'
        return self.expr('fn1', scope, depth)

    def side_effect(self, scope, depth):
        r = self.r
        if self.has('output') and r.random() < 0.7:
            self.note('output')
            return f'(output {r.choice([self.string() if self.has("strings") else "(list %o)", "(print " + self.expr("int", scope, depth) + ")"])})'
        return self.expr('int', scope, depth)

    # ---------------------------------------------------------------- traps
    def signal_expr(self, scope, depth):
        r = self.r
        k = r.random()
        if k < 0.3: return f"(signal '{self.datum()})"
        if k < 0.45: return f'(signal {self.expr("any", scope, depth + 1)})'
        if k < 0.6 and self.has('prelude'): return f"(throw 'kind '{r.choice(['k1', 'k2', 'oops'])} 'source 'test 'value {self.expr('int', scope, depth + 1)})"
        if k < 0.7: return '(abort)'
        if k < 0.8: return '(car 5)'
        if k < 0.9: return '(undefined-function-xyz 1)'
        return '(divide 1 0)'

    def trap_expr(self, ty, scope, depth):
        r = self.r
        self.note('trap')
        body_ok = self.expr(ty, scope, depth)
        body = body_ok if r.random() < 0.35 else self.place_signal(ty, scope, depth)
        if self.has('prelude') and r.random() < 0.5:
            kind = r.choice(['k1', 'k2', 'oops', 'wrong-argument-type', 'divide-by-zero'])
            catchers = [f"(catch {kind} (lambda (e) {self.expr(ty, scope + [('e', 'any')], depth + 1)}))"]
            if r.random() < 0.6:
                catchers.append(f"(catch-all (lambda (e) {self.expr(ty, scope + [('e', 'any')], depth + 1)}))")
            return f'(try {body} {" ".join(catchers)})'
        handler = r.choice([self.expr(ty, scope, depth + 1), '*trapped-signal*', '(car *trapped-signal*)', "(signal (list 'again *trapped-signal*))"])
        return f'(eval (trap {body} {handler}))'

    def place_signal(self, ty, scope, depth):
        """an expression of type ty with a signalling sub-expression at a random position"""
        r = self.r
        s = self.signal_expr(scope, depth)
        k = r.random()
        if k < 0.2: return s
        if k < 0.4: return f'(add {self.expr("int", scope, depth + 1)} {s})' if ty == 'int' else f'(cons {s} ())'
        if k < 0.55: return f'(if {s} {self.expr(ty, scope, depth + 1)} {self.expr(ty, scope, depth + 1)})'
        if k < 0.7: return f'((lambda (q) {self.expr(ty, scope + [("q", "int")], depth + 1)}) {s})'
        if k < 0.8: return f'((lambda () {s}))'
        if k < 0.9 and self.has('macros') and self.has('prelude'): return f'(when t {s})'
        return f'({s} 1 2)'

    # ---------------------------------------------------------------- faults
    def fault(self, ty, scope, depth):
        r = self.r
        self.note('fault')
        d = depth + 1
        k = r.choice(['unbound', 'arity-native', 'arity-lambda', 'type', 'badop', 'special', 'params', 'twofaults', 'signal', 'arity-and-operand', 'arity-and-operand'])
        if k == 'arity-and-operand':
            # a call with the wrong NUMBER of operands one of which signals (or has an effect): the operands come first —
            # the operand's signal is the outcome, the arity is looked at only when every operand has a value
            bad = self.fault(ty, scope, d) if r.random() < 0.5 else r.choice(['(car 5)', 'nope', "(add 'a 1)", "(signal 'from-operand)"])
            fn = r.choice(['(lambda (x) x)', '(lambda (x y) x)', '(lambda () 1)', '(lambda (x & r) r)', '(lambda (x y & r) r)', 'cons', 'car', 'add'])
            shape = r.choice(['too-many', 'too-few', 'second'])
            if shape == 'too-many': return f'({fn} 1 2 3 {bad})'
            if shape == 'too-few': return f'({fn} {bad})' if fn not in ('(lambda () 1)', 'car', '(lambda (x) x)', '(lambda (x & r) r)') else f'({fn} 1 {bad} 2 3)'
            return f'({fn} {bad} 1 2 3 4)'
        if k == 'unbound': return r.choice(['undefined-variable-q', 'zzz', 'p0'])
        if k == 'arity-native': return r.choice([f'(add {self.small_int()})', '(cons 1)', '(car)', '(car 1 2)', '(add 1 2 3)', "(= 1)", '(list-x 1)'])
        if k == 'arity-lambda':
            return r.choice(['((lambda (x y) x) 1)', '((lambda (x) x) 1 2)', '((lambda () 1) 2)', '((lambda (x & r) x))', f'((lambda (x y z) z) {self.small_int()} 2)'])
        if k == 'type': return r.choice(["(add 'a 1)", '(add 1 ())', '(car 5)', "(cdr 'x)", '(multiply %a 2)', '(< 1 (list 1))', "(divide 1 'b)", '(add (list 1) 1)'])
        if k == 'badop': return r.choice(['(1 2 3)', "('a 1)", '((list 1 2) 3)', '(() 1)', '(%a)'])
        if k == 'special': return r.choice(['(if 1)', '(if 1 2)', '(if 1 2 3 4)', '(quote)', '(quote 1 2)', '(lambda)', '(lambda (x))', '(lambda 5 1)', '(trap 1)', '(lambda (x) 1 2)'])
        if k == 'params': return r.choice(['(lambda (1) 1)', '(lambda (x &) x)', '(lambda (x & y z) x)', '(lambda (& &) 1)', "(lambda ((a)) 1)", '((lambda (x & &) &) 1 2 3)'])
        if k == 'twofaults':
            a = self.fault(ty, scope, d)
            b = self.fault(ty, scope, d)
            return f'({r.choice(["add", "cons", "list"])} {a} {b})'
        return self.signal_expr(scope, depth)

    # ---------------------------------------------------------------- top level
    def toplevel(self):
        r = self.r
        k = r.random()
        if self.has('globals') and k < 0.3:
            ty = r.choice(['int', 'int', 'list', 'fn1', 'fn2'])
            name = self.fresh('g')
            e = self.expr(ty, [], 1)
            self.globals.append((name, ty))
            self.note('define')
            return f"(define '{name} {e} \"\")"
        if self.has('globals') and self.has('prelude') and k < 0.4:
            name = self.fresh('f')
            params = [self.fresh('a') for _ in range(r.randint(1, 2))]
            body = self.expr('int', [(p, 'int') for p in params], 1)
            self.globals.append((name, f'fn{len(params)}'))
            self.note('defun')
            return f'(defun {name} ({" ".join(params)}) "doc" {body})'
        ty = r.choice(['int', 'int', 'list', 'bool', 'any'])
        return self.expr(ty, [], 0)

    def program(self, forms=None):
        n = forms if forms is not None else self.r.randint(1, 5)
        return '\n'.join(self.toplevel() for _ in range(n))
